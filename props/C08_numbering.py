"""C08 -- counters and automatic numbers follow LaTeX's numbering rules.

Stream 'docs': documents of the latexdoc grammar; the LaTeX counter machine of
models/latexdoc.py is run over the AST and compared with
  * node.ref.textContent of every numbered candidate (headings, equations, eqnarray
    rows, captions, theorem-likes, enumerate items), matched by (node name, first
    marker word inside the node);
  * item.position of enumerate items;
  * document.context.counters[name].value at the end.
Stream 'repr' (exhaustive): Counter.Roman/roman for 1..4999 and Alph/alph for 1..26
against a positional table-driven converter; arabic; one value per block also
through \\setcounter + \\Roman{..} in a parsed document.
"""
import logging

from vlib import Stream, ok, fail, skip, call_real, known_keys
from models import latexdoc as L
from props.C07_parsing import parse_document, Walk

logging.disable(logging.CRITICAL)

PROPERTY = "C08"
LEVEL = "exploration"
ASSUMPTIONS = [
    "models/latexdoc.py CounterMachine transcribes LaTeX's rules (C.8.4, classes.dtx, \\@thm, \\eqnarray); "
    "\\thepart=\\Roman, book/report equation/figure/table prefixed by \\thechapter only when chapter>0",
    "sec-num-depth is read from the configuration as data; units deeper than it and everything numbered "
    "within them are surveyed, not asserted (LaTeX does not step their counters)",
    "normal form: article documents use secnumdepth>=0; \\item[..] only in description lists; no trailing "
    "\\\\ in eqnarray; \\appendix is followed by a top-level unit; counter values stay within 0..26",
    "enumerate items are compared as 1,2,3.. (item.position and the arabic ref); LaTeX's (a)/i./A. label "
    "styles are presentation and not part of the statement",
    "numbered nodes are identified by (node name, first marker word inside the node)",
]

KNOWN = known_keys(PROPERTY)
K_SET = "number:after-setcounter-on-parent"
K_EQ0 = "number:book-equation-before-first-chapter"
K_REPORT = "number:report-equation-without-chapter"
K_PART = "number:part-not-roman"
K_OPT = "item-position:after-optional-label"

NUMBERED_NAMES = set(L.SEC_NAMES) | set(["equation", "ArrayRow", "caption", "thmenv", "item"])


def plain(v):
    """Detail values must be JSON/pickle friendly plain types."""
    if v is None or type(v) in (int, str, bool, float):
        return v
    if isinstance(v, int):
        return int(v)
    if isinstance(v, str):
        return str.__str__(v)[:200]
    return repr(v)[:200]


def ref_text(node):
    r = getattr(node, "ref", None)
    if r is None:
        return None
    t = getattr(r, "textContent", None)
    if t is None:
        t = str(r)
    return "".join(ch for ch in t)


def index_nodes(w):
    """(nodeName, first marker) -> element index, for candidate nodes."""
    out = {}
    dup = None
    for idx, (n, s, e, p) in enumerate(w.elements):
        nm = w._name(n)
        if nm in NUMBERED_NAMES:
            key = (nm, w.first_marker(idx))
            if key in out:
                dup = key
            else:
                out[key] = idx
    return out, dup


def judge(case):
    a = L.analyze(case)
    feats = set(f for f in a.features if not f.startswith("deco-") and not f.startswith("label-"))
    feats.add("cls-" + case["cls"])
    feats.add("secnumdepth=%d" % case["secnumdepth"])
    doc, err = parse_document(a.source, case["secnumdepth"])
    if err is not None:
        return fail(err.key, dict(err.detail(), source=a.source), sorted(feats))
    w = Walk(doc, check_tree=False)
    nodes, dup = index_nodes(w)
    kinds = set(o.kind for o in a.objects if o.number is not None and o.asserted)
    explicit = any(e.split(":")[0] in ("set", "add", "step") for e in a.events)
    nontrivial = len(kinds) >= 2 and ("reset-event" in a.features or explicit)
    if explicit:
        feats.add("explicit-counter-command")
    if len(kinds) >= 2:
        feats.add("kinds>=2")
    n_unasserted = sum(1 for o in a.objects if not o.asserted)
    if n_unasserted:
        feats.add("has-unasserted-objects")
    fl = sorted(feats)
    if dup is not None:
        return fail("harness-domain:ambiguous-node-key", {"key": list(dup), "source": a.source}, fl)

    for o in a.objects:
        idx = nodes.get((o.name, o.first))
        if idx is None:
            return fail("numbered-node-missing:" + o.name, {"first": o.first, "source": a.source}, fl)
        node = w.elements[idx][0]
        if o.kind == "item":
            par = getattr(node, "parentNode", None)
            if w._name(par) != "enumerate":
                return fail("numbered-node-missing:item-not-in-enumerate", {"first": o.first, "source": a.source}, fl)
            pos = plain(getattr(node, "position", None))
            if pos != o.position:
                return fail(K_OPT if getattr(o, "after_optional", False) else "item-position", {"first": o.first, "got": pos, "expected": o.position,
                                              "source": a.source}, fl)
        if not o.asserted:
            continue
        got = ref_text(node)
        if got != o.number:
            key = diagnose(case, a, o, got)
            return fail(key, {"object": o.name, "first_marker": o.first, "got": got, "expected": o.number,
                              "source": a.source}, fl)
    # nodes that carry a number although LaTeX prints none
    model_keys = set((o.name, o.first) for o in a.objects)
    for key, idx in nodes.items():
        if key in model_keys:
            continue
        node = w.elements[idx][0]
        nm = key[0]
        if nm == "item":
            continue            # itemize/description/bibliography items: not numbered objects of the statement
        if nm == "ArrayRow":
            par = getattr(node, "parentNode", None)
            if w._name(par) != "eqnarray":
                continue
        if ref_text(node) is not None:
            return fail("unexpected-number:" + nm, {"first": key[1], "got": ref_text(node), "source": a.source}, fl)
    # final counter values
    ctrs = doc.context.counters
    for name in sorted(a.counters):
        c = ctrs.get(name)
        got = plain(getattr(c, "value", None))
        if got != a.counters[name]:
            key = "counter-value:" + ("thm" if name.startswith("thm") else name)
            if a.set_parent_seen:
                key = K_SET
            return fail(key, {"counter": name, "got": got, "expected": a.counters[name], "source": a.source}, fl)
    return ok(fl, nontrivial)


def diagnose(case, a, o, got):
    exp = o.number
    if o.name == "part" and got is not None and got.isdigit() and exp == L.to_roman(int(got)):
        return K_PART
    if o.kind in ("equation", "row"):
        if case["cls"] == "report" and got is not None and "." in exp and exp.split(".")[-1] == got:
            return K_REPORT
        if case["cls"] in ("book", "report") and got == "0." + exp:
            return K_EQ0
    if o.after_set_parent:
        return K_SET
    if getattr(o, "after_optional", False):
        return K_OPT
    return "number:" + o.name


def make(tier):
    excl = ["math-group-charsub", "math-eqnarray-charsub", "label-stale", "label-bullet"]
    if K_SET in KNOWN:
        excl.append("set-resets")
    if K_EQ0 in KNOWN:
        excl.append("eq-before-chapter")
    if K_REPORT in KNOWN:
        excl.append("report-equation")
    if K_PART in KNOWN:
        excl.append("part-number")
    if K_OPT in KNOWN:
        excl.append("enum-optional-label")
    feats = L.ALL_FEATURES - frozenset(["quotes", "verb", "bib", "footnote", "mbox", "verbatim", "tabular"])
    return L.documents(features=feats, exclude=excl, max_items=16,
                       boost=("equation", "eqnarray", "thm", "float", "list"))


def make_equations(tier):
    """The same grammar narrowed to what moves the equation counter: headings, equations, eqnarray rows with and
    without \\nonumber, counter commands (many documents of the full grammar have one equation at most)."""
    excl = ["math-group-charsub", "math-eqnarray-charsub", "label-stale", "label-bullet"]
    for key, tag in ((K_SET, "set-resets"), (K_EQ0, "eq-before-chapter"), (K_REPORT, "report-equation"),
                     (K_PART, "part-number")):
        if key in KNOWN:
            excl.append(tag)
    feats = frozenset(["sections", "display", "counters", "math", "secnumdepth", "labels"])
    return L.documents(features=feats, exclude=excl, max_items=18, classes=("book", "report", "article", "book"),
                       boost=("equation", "eqnarray", "eqnarray", "eqnarray"))


def check(case):
    return judge(case)


# --------------------------------------------------------------------------
# representations: exhaustive
# --------------------------------------------------------------------------
BLOCK = 100
NBLOCKS = 50            # 1..4999 in blocks of 100 (block 0 = 1..99)


def repr_case(i):
    if i < NBLOCKS:
        lo = max(1, i * BLOCK)
        hi = min(4999, i * BLOCK + BLOCK - 1)
        return {"repr": "roman", "lo": lo, "hi": hi}
    return {"repr": "alph", "lo": 1, "hi": 26}


def _counter(v):
    import plasTeX
    from plasTeX.Context import Context
    ctx = _counter.ctx
    if ctx is None:
        ctx = _counter.ctx = Context(load=False)
    return plasTeX.Counter(ctx, "vc", None, v)


_counter.ctx = None


def _through_tex(name, v):
    from plasTeX.TeX import TeX
    tex = TeX()
    tex.input("\\newcounter{vc}\\setcounter{vc}{%d}\\%s{vc}" % (v, name))
    return tex.parse().textContent.strip()


def check_repr(case):
    feats = ["repr-" + case["repr"]]
    if case["repr"] == "roman":
        for v in range(case["lo"], case["hi"] + 1):
            c = _counter(v)
            for attr, want in (("Roman", L.to_roman(v)), ("roman", L.to_roman(v, False)), ("arabic", str(v))):
                got, err = call_real(getattr, c, attr)
                if err is not None:
                    return fail(err.key, dict(err.detail(), value=v, repr=attr), feats)
                if got != want:
                    return fail("repr:" + attr, {"value": v, "got": got, "expected": want}, feats)
        v = case["lo"]
        for attr, want in (("Roman", L.to_roman(v)), ("roman", L.to_roman(v, False)), ("arabic", str(v))):
            got, err = call_real(_through_tex, attr, v)
            if err is not None:
                return fail(err.key, dict(err.detail(), value=v, repr=attr), feats)
            if got != want:
                return fail("repr-command:" + attr, {"value": v, "got": got, "expected": want}, feats)
    else:
        for v in range(1, 27):
            c = _counter(v)
            for attr, want in (("Alph", L.to_alph(v)), ("alph", L.to_alph(v, False))):
                got, err = call_real(getattr, c, attr)
                if err is not None:
                    return fail(err.key, dict(err.detail(), value=v, repr=attr), feats)
                if got != want:
                    return fail("repr:" + attr, {"value": v, "got": got, "expected": want}, feats)
                got, err = call_real(_through_tex, attr, v)
                if err is not None:
                    return fail(err.key, dict(err.detail(), value=v, repr=attr), feats)
                if got != want:
                    return fail("repr-command:" + attr, {"value": v, "got": got, "expected": want}, feats)
    return ok(feats, True)


RULE = ("docs: latexdoc documents (article/book/report, secnumdepth -1..5, theorem declarations own/shared/"
        "within/starred, headings starred or not, equations, eqnarray rows with \\nonumber, captions, enumerate "
        "lists nested <=4, \\appendix, \\setcounter/\\addtocounter/\\stepcounter between blocks). Non-trivial: >=2 "
        "numbered kinds and (a reset event: a unit stepped while a counter within it was non-zero, or an explicit "
        "counter command). repr: complete enumeration of 1..4999 (Roman, roman, arabic) and 1..26 (Alph, alph).")

STREAMS = [
    Stream("docs", "given", make, check, budget={"quick": 250, "thorough": 5000}, timeout=20.0, rule=RULE),
    Stream("equations", "given", make_equations, check, budget={"quick": 150, "thorough": 3000}, timeout=20.0,
           rule=RULE + " This stream narrows the grammar to headings, equation/eqnarray (rows with and without "
                       "\\nonumber) and counter commands, so that most documents hold several numbered rows."),
    Stream("repr", "enum", lambda tier: (NBLOCKS + 1, repr_case), check_repr, timeout=60.0,
           rule="blocks of 100 consecutive counter values, all evaluated"),
]

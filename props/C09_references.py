"""C09 -- every reference resolves to the object its label names, wherever the label is.

Stream 'docs': latexdoc documents with labels (in titles, captions, equations,
eqnarray rows, items, theorem bodies, paragraphs after headings and after closed
nested constructs) and references before/after/inside the labelled object, plus
dangling references and \\cite/\\bibitem in both orders.  The model designates, per
label, the numbered object LaTeX's \\@currentlabel names (group-local); the oracle
finds that node in the parsed tree by (node name, first marker) and requires
  ref_node.idref['label'] *is* that node, node.id == label, node.ref == model number,
  dangling references resolve to no node of the document, ids pairwise distinct,
  cite.bibitems == the bibitem nodes of the existing keys, in key order.
Stream 'moved' (metamorphic): the same document with all references re-issued in
front of / behind the body must give the same label -> (node, number) map.
"""
import logging

from vlib import Stream, ok, fail, skip, call_real, known_keys
from models import latexdoc as L
from props.C07_parsing import parse_document, Walk
from props.C08_numbering import ref_text, plain
from props.C08_numbering import diagnose as c08_diagnose

logging.disable(logging.CRITICAL)

PROPERTY = "C09"
LEVEL = "exploration"
ASSUMPTIONS = [
    "models/latexdoc.py designates the labelled object by LaTeX's rule: \\refstepcounter sets \\@currentlabel "
    "locally to the current group, every environment is a group, sectioning commands act at the outer level",
    "labels are generated only where the statement speaks: a numbered object is current and asserted; not after "
    "a starred/unnumbered unit, not before the first numbered object, not in footnotes; at most two labels per object (then either key may be the identifier)",
    "the first row of an eqnarray may be represented by the eqnarray node itself (it carries the row's number)",
    "numbers are those of the C08 model; constructs listed as C08 known findings are excluded here as well",
    "nodes are identified by (node name, first marker word inside the node)",
]

KNOWN = known_keys(PROPERTY)
K_STALE = "label-target:stale"
K_BULLET = "label-target:bullet"
KNOWN_C08 = known_keys("C08")

TARGET_NAMES = set(L.SEC_NAMES) | set(["equation", "ArrayRow", "caption", "thmenv", "item", "eqnarray"])


def _features(case, a):
    feats = set()
    feats.add("cls-" + case["cls"])
    for l in a.labels.values():
        feats.add("label-" + l.cls)
        feats.add("label-on-" + a.objects[l.obj].kind)
        if l.in_arg:
            feats.add("label-in-argument")
    nref = {}
    fwd = {}
    for r in a.refs:
        if r.dangling:
            feats.add("dangling-ref")
            continue
        nref[r.name] = nref.get(r.name, 0) + 1
        if r.before_label:
            fwd[r.name] = fwd.get(r.name, 0) + 1
            feats.add("forward-ref")
        else:
            feats.add("backward-ref")
        if r.page:
            feats.add("pageref")
    objs = [l.obj for l in a.labels.values()]
    if len(objs) != len(set(objs)):
        feats.add("two-labels-on-one-object")
        first = dict((o, min((l.order, n) for n, l in a.labels.items() if l.obj == o)[1]) for o in set(objs)
                     if objs.count(o) > 1)
        if any((not r.dangling) and (not r.before_label) and first.get(a.labels[r.name].obj) == r.name
               for r in a.refs):
            feats.add("ref-to-first-of-two-labels-after-both")
    pending2 = any(v >= 2 for v in fwd.values())
    multi_fwd = any(nref[k] >= 2 and fwd.get(k) for k in nref)
    if pending2:
        feats.add("pending>=2")
    if a.cites:
        feats.add("cite")
    nontrivial = bool(multi_fwd or any(l.in_arg for l in a.labels.values()))
    return feats, nontrivial


def _index(w):
    out = {}
    for idx, (n, s, e, p) in enumerate(w.elements):
        nm = w._name(n)
        if nm in TARGET_NAMES or nm == "bibitem":
            out.setdefault((nm, w.first_marker(idx)), idx)
    return out


def _ref_nodes(w):
    return [n for (n, s, e, p) in w.elements if w._name(n) in ("ref", "pageref")]


def _describe(w, node, byid):
    idx = byid.get(id(node))
    if idx is None:
        return None
    return [w._name(node), w.first_marker(idx), ref_text(node)]


def judge(case):
    a = L.analyze(case)
    feats, nontrivial = _features(case, a)
    fl = sorted(feats)
    doc, err = parse_document(a.source, case["secnumdepth"])
    if err is not None:
        return fail(err.key, dict(err.detail(), source=a.source), fl)
    w = Walk(doc, check_tree=False)
    byid = dict((id(e[0]), i) for i, e in enumerate(w.elements))
    index = _index(w)
    rnodes = _ref_nodes(w)
    if len(rnodes) != len(a.refs):
        return fail("refs:count", {"got": len(rnodes), "expected": len(a.refs), "source": a.source}, fl)
    for r, node in zip(a.refs, rnodes):
        if w._name(node) != ("pageref" if r.page else "ref"):
            return fail("refs:order", {"source": a.source}, fl)
        tgt = node.idref.get("label")
        if r.dangling:
            if tgt is not None and id(tgt) in byid:
                return fail("dangling-ref-resolved", {"label": r.name, "to": _describe(w, tgt, byid),
                                                      "source": a.source}, fl)
            continue
        lab = a.labels[r.name]
        o = a.objects[lab.obj]
        want_idx = index.get((o.name, o.first))
        if want_idx is None:
            return fail("labelled-node-missing:" + o.name, {"label": r.name, "source": a.source}, fl)
        want = w.elements[want_idx][0]
        alt = None
        if o.kind == "row" and getattr(o, "rowindex", None) == 0:
            alt_idx = index.get(("eqnarray", o.first))
            alt = w.elements[alt_idx][0] if alt_idx is not None else None
        where = "forward" if r.before_label else "backward"
        if tgt is None or id(tgt) not in byid:
            return fail("ref-unresolved:%s:%s" % (lab.cls, where),
                        {"label": r.name, "expected": [o.name, o.first], "source": a.source}, fl)
        if tgt is not want and (alt is None or tgt is not alt):
            got = _describe(w, tgt, byid)
            same_key = got is not None and got[0] == o.name and got[1] == o.first
            if same_key:
                key = "ref-target-not-identical:" + o.name
            else:
                key = "label-target:%s" % lab.cls
                if lab.cls == "clean":
                    key += ":%s-got-%s" % (o.name, got[0] if got else None)
            return fail(key, {"label": r.name, "expected": [o.name, o.first, o.number], "got": got,
                              "where": where, "source": a.source}, fl)
        tid = plain(getattr(tgt, "id", None))
        # an object with two labels carries one of them as its identifier
        same_obj = [n for n, l in a.labels.items() if l.obj == lab.obj]
        if tid != r.name and not (len(same_obj) > 1 and tid in same_obj):
            other = a.labels.get(tid)
            if other is not None and other.cls != "clean":
                # the id was taken over by another label that landed on this node
                key = "label-target:" + other.cls
            else:
                key = "label-id:" + lab.cls
            return fail(key, {"label": r.name, "id": tid, "source": a.source}, fl)
        num = ref_text(tgt)
        if num != o.number:
            key = c08_diagnose(case, a, o, num)
            return fail("ref-" + key, {"label": r.name, "got": num, "expected": o.number,
                                       "source": a.source}, fl)
    # labels that nobody references: still must sit on their object
    labels = getattr(doc.context, "labels", {})
    for name, lab in a.labels.items():
        o = a.objects[lab.obj]
        node = labels.get(name)
        want_idx = index.get((o.name, o.first))
        alt_idx = index.get(("eqnarray", o.first)) if (o.kind == "row" and getattr(o, "rowindex", None) == 0) else None
        if node is None or id(node) not in byid:
            return fail("label-not-registered:" + lab.cls, {"label": name, "source": a.source}, fl)
        if byid[id(node)] not in (want_idx, alt_idx):
            key = "label-target:%s" % lab.cls
            got = _describe(w, node, byid)
            if lab.cls == "clean":
                key += ":%s-got-%s" % (o.name, got[0] if got else None)
            return fail(key, {"label": name, "expected": [o.name, o.first, o.number], "got": got,
                              "where": "label-table", "source": a.source}, fl)
    # distinct identifiers
    ids = {}
    for n, s, e, p in w.elements:
        i = getattr(n, "@id", None)
        if i is None:
            continue
        i = plain(i)
        if i in ids and ids[i] is not n:
            return fail("duplicate-id", {"id": i, "source": a.source}, fl)
        ids[i] = n
    # citations
    cnodes = [n for (n, s, e, p) in w.elements if w._name(n) == "cite"]
    if len(cnodes) != len(a.cites):
        return fail("cites:count", {"got": len(cnodes), "expected": len(a.cites), "source": a.source}, fl)
    bykey = dict((b.key, b) for b in a.bibitems)
    for c, node in zip(a.cites, cnodes):
        items, err = call_real(lambda: list(node.bibitems))
        if err is not None:
            return fail(err.key, dict(err.detail(), source=a.source), fl)
        want = []
        for k in c.keys:
            if k in bykey:
                idx = index.get(("bibitem", bykey[k].first))
                if idx is None:
                    return fail("bibitem-node-missing", {"key": k, "source": a.source}, fl)
                want.append(w.elements[idx][0])
        if len(items) != len(want) or any(x is not y for x, y in zip(items, want)):
            return fail("cite-target", {"keys": c.keys, "got": [_describe(w, x, byid) for x in items],
                                        "source": a.source}, fl)
    return ok(fl, nontrivial)


def label_map(case):
    """label -> [node name, first marker, number] as seen through one \\ref per label."""
    a = L.analyze(case)
    doc, err = parse_document(a.source, case["secnumdepth"])
    if err is not None:
        return None, err, a
    w = Walk(doc, check_tree=False)
    byid = dict((id(e[0]), i) for i, e in enumerate(w.elements))
    out = {}
    rnodes = _ref_nodes(w)
    if len(rnodes) != len(a.refs):
        return {"#refs": len(rnodes)}, None, a
    for r, node in zip(a.refs, rnodes):
        tgt = node.idref.get("label")
        d = _describe(w, tgt, byid) if tgt is not None else None
        out.setdefault(r.name, []).append(d)
    return out, None, a


def judge_moved(case):
    a0 = L.analyze(case)
    feats, nontrivial = _features(case, a0)
    if not a0.refs:
        return skip("no-references", sorted(feats))
    maps = []
    for variant in (case, L.refs_moved(case, "front"), L.refs_moved(case, "back")):
        m, err, a = label_map(variant)
        if err is not None:
            return fail(err.key, dict(err.detail(), source=a.source), sorted(feats))
        maps.append((m, a.source))
    base = dict((k, v) for k, v in maps[0][0].items())
    for (m, src), nm in zip(maps[1:], ("front", "back")):
        for k in sorted(base):
            if k not in m:
                return fail("moved:ref-lost", {"label": k, "variant": nm, "source": src}, sorted(feats))
            vals = base[k] + m[k]
            first = vals[0]
            if any(v != first for v in vals):
                lab = a0.labels.get(k)
                cls = lab.cls if lab is not None else "dangling"
                return fail("moved:target-depends-on-order:%s:%s" % (nm, cls),
                            {"label": k, "original": base[k], "variant": m[k], "source": src,
                             "original_source": maps[0][1]}, sorted(feats))
    feats.add("variants-compared")
    return ok(sorted(feats), nontrivial)


def _excl():
    excl = ["math-group-charsub", "math-eqnarray-charsub", "enum-optional-label", "+multi-label"]
    if K_STALE in KNOWN:
        excl.append("label-stale")
    if K_BULLET in KNOWN:
        excl.append("label-bullet")
    for key, name in (("number:after-setcounter-on-parent", "set-resets"),
                      ("number:book-equation-before-first-chapter", "eq-before-chapter"),
                      ("number:report-equation-without-chapter", "report-equation"),
                      ("number:part-not-roman", "part-number")):
        if key in KNOWN_C08:
            excl.append(name)
    return excl


FEATS = L.ALL_FEATURES - frozenset(["quotes", "verb", "verbatim"])


def make(tier):
    return L.documents(features=FEATS, exclude=_excl(), max_items=14,
                       boost=("equation", "eqnarray", "thm", "float"))


def make_moved(tier):
    # the relation does not depend on *which* object a label designates, so the
    # label classes excluded for known findings stay in
    excl = [e for e in _excl() if not e.startswith("label-")]
    return L.documents(features=FEATS - frozenset(["counters"]), exclude=excl, max_items=12)


RULE = ("docs: latexdoc documents; label slots in titles, captions, equations, eqnarray rows, enumerate items, "
        "theorem bodies, paragraphs (also after a nested numbered construct has closed); every \\ref/\\pageref "
        "draws an existing label (6/7) or a dangling name; thebibliography before or after the \\cite commands. "
        "Non-trivial: a label referenced >=2 times with >=1 reference before it, or a label inside a "
        "title/caption argument. moved: three parses per case (original, refs in front, refs behind).")

STREAMS = [
    Stream("docs", "given", make, judge, budget={"quick": 200, "thorough": 4000}, timeout=20.0, rule=RULE),
    Stream("moved", "given", make_moved, judge_moved, budget={"quick": 70, "thorough": 1500}, timeout=40.0,
           rule=RULE),
]

"""C18 -- the index lists every entry exactly once, under its key, in collation order.

One `given` stream: a generated article/book with \\usepackage{makeidx}, \\makeindex,
5-40 \\index entries scattered over sections (plain text, inside \\emph{}, list items,
footnotes) and \\printindex; index-columns 1..4.  Keys come from pools that force
merges and near-misses (case variants, trailing blank, accented / numeric / symbol
initials, sort@display with and without markup, quoted ! @ |, 1-3 levels, |see
|seealso |textbf ...).  Oracle: models/idxmodel.py validity predicates over the
printindex node (tree of Index nodes: key, sortkey, pages; groups; columns).
"""
import logging

from hypothesis import strategies as st

from vlib import Stream, ok, fail, skip, call_real, known_keys
from models import idxmodel as im

logging.disable(logging.CRITICAL)

PROPERTY = "C18"
LEVEL = "exploration"
ASSUMPTIONS = [
    "models/idxmodel.py reads an \\index argument by makeindex's rules (\" quotes one character and is dropped; ! "
    "separates levels; @ separates sort from display; | starts the page format) and identifies a line by "
    "(sort key, display text, display source without blanks): makeindex merges entries iff sort and actual fields agree",
    "the collation function is environment data: plasTeX.Base.LaTeX.Index.collator is read at run time and handed to "
    "the model (pyuca in this environment lacks Collator_10_0_0, so it is x.lower()); only the order of the *sort* keys "
    "is asserted, ties may stand in any order",
    "a level without @ is sorted by the text of its display; displays with markup are generated with an explicit sort key",
    "heading of a group: first character of the sort key, accents removed (NFD), upper-cased; `_` and every other "
    "non-letter file under non-letter headings; generated accented initials decompose to one ASCII letter",
    "document order of the occurrences = order of the index nodes in a depth-first walk of the document tree; entries "
    "are written in body text only (not in titles or captions), none after \\printindex, no |( |) ranges",
]

KNOWN = known_keys(PROPERTY)
K_TIES = "index:duplicate-line:tied-collation-keys"
EXCL_TIES = K_TIES in KNOWN
K_ENCAP = "index:separator-inside-page-format-splits-the-key"
EXCL_ENCAP = K_ENCAP in KNOWN


def collator():
    from plasTeX.Base.LaTeX import Index
    return Index.collator


# --------------------------------------------------------------------------
# generator (choice tape, see props/C10_shapes.py)
# --------------------------------------------------------------------------
class Tape(object):
    def __init__(self, data):
        self.data = data
        self.pos = 0

    def byte(self):
        if self.pos < len(self.data):
            b = self.data[self.pos]
            self.pos += 1
            return b
        return 0

    def int(self, lo, hi):
        if hi <= lo:
            return lo
        return lo + self.byte() % (hi - lo + 1)

    def choice(self, options):
        return options[self.byte() % len(options)]


def P(disp, sort=None):
    return {"sort": sort, "disp": disp}


MAINS = [P("alpha"), P("Alpha"), P("beta"), P("gamma"), P("ALPHA"), P("alpha "), P("Beta"), P("zeta"),
         P("Zeta"), P("eclair"), P("\u00c9clair"), P("\u00e9cole"), P("\u00d6sterreich"), P("\u00fcber"),
         P("1one"), P("42"), P("_under"), P("-dash"), P("+plus"), P(".dot"), P("a!b"), P("x@y"), P("p|q"),
         P("al pha"), P("delta"), P("Delta"), P("mu"), P("nu"),
         P("\\textbf{beta}", "beta"), P("\\textbf{Beta}", "beta"), P("Alpha", "alpha"), P("alpha", "Alpha"),
         P("alpha", "zz"), P("\\emph{Omega}", "omega"), P("\\textit{one}", "1"), P("\\texttt{gamma}", "gamma"),
         P("q\"r"), P("beta", "be!ta")]
SUBS = [P("sub"), P("Sub"), P("item"), P("alpha"), P("zeta"), P("1"), P("s!t"), P("\\textbf{sub}", "sub"),
        P("\\emph{zed}", "a"), P("sub "), P("\u00e9t\u00e9")]
SUBSUBS = [P("x"), P("X"), P("y"), P("\\textbf{x}", "x"), P("x|y")]
ENCAPS = [None] * 6 + ["textbf", "textit", "see{beta}", "seealso{alpha}", "emph", "see{alpha!sub}"]
if EXCL_ENCAP:
    # listed finding: a level separator inside the page format
    ENCAPS = ENCAPS[:-1] + ["see{alpha, sub}"]
WORDS = ["lorem", "ipsum", "dolor", "sit", "amet", "magna", "aliqua"]


def gen_entry(t, hot):
    """hot: a short list of mains this document concentrates on (forces merges)."""
    m = t.choice(hot) if t.int(0, 3) > 0 else t.choice(MAINS)
    levels = [m]
    d = t.int(0, 9)
    if d >= 5:
        levels.append(t.choice(SUBS[:4]) if t.int(0, 2) > 0 else t.choice(SUBS))
        if d >= 8:
            levels.append(t.choice(SUBSUBS))
    return {"levels": [dict(l) for l in levels], "encap": t.choice(ENCAPS)}


def canonicalise_ties(entries, collate):
    """Exclusion for the listed finding: make entries that would *tie* with a
    different line under the same parent name that line instead (so they merge)."""
    first = {}
    changed = 0
    for e in entries:
        path = ()
        for lv in e["levels"]:
            sort = lv["sort"] if lv["sort"] is not None else im.strip_markup(lv["disp"])
            text = im.strip_markup(lv["disp"])
            k = (path, collate(sort), collate(text))
            if k in first:
                keep = first[k]
                if (keep["sort"], keep["disp"]) != (lv["sort"], lv["disp"]):
                    lv["sort"], lv["disp"] = keep["sort"], keep["disp"]
                    changed += 1
            else:
                first[k] = dict(lv)
            s2 = lv["sort"] if lv["sort"] is not None else im.strip_markup(lv["disp"])
            path = path + ((s2, lv["disp"]),)
    return changed


def build_case(data):
    t = Tape(data)
    cls = t.choice(["article", "article", "book"])
    cols = t.int(1, 4)
    n = t.int(5, 40) if t.int(0, 2) else t.int(5, 12)
    hot = [t.choice(MAINS) for _ in range(t.int(2, 6))]
    entries = [gen_entry(t, hot) for _ in range(n)]
    excluded = 0
    if EXCL_TIES:
        excluded = canonicalise_ties(entries, collator())
    # layout: sections, each a list of slots
    nsec = t.int(1, 5)
    slots = []
    for i, e in enumerate(entries):
        slots.append({"sec": t.int(0, nsec - 1) if i else 0, "where": t.choice(["text"] * 5 + ["emph", "item", "footnote", "tight", "atletter"]),
                      "entry": im.render_entry(e)})
    slots.sort(key=lambda s: s["sec"])       # stable: document order inside a section
    return {"class": cls, "columns": cols, "sections": nsec, "slots": slots,
            "excluded_ties": excluded, "ws": t.int(0, 250)}


def index_case():
    return st.binary(min_size=300, max_size=300).map(build_case)


# --------------------------------------------------------------------------
# source
# --------------------------------------------------------------------------
def case_source(case):
    out = ["\\documentclass{%s}\n\\usepackage{makeidx}\n\\makeindex\n\\begin{document}\n" % case["class"]]
    cur = None
    w = 0
    for n, s in enumerate(case["slots"]):
        if s["sec"] != cur:
            cur = s["sec"]
            if case["class"] == "book" and (cur % 2 == 0 or n == 0):
                out.append("\n\\chapter{Chapter %d}\n" % (cur + 1))
            out.append("\n\\%s{Part %d}\n" % ("section" if cur % 3 != 2 else "subsection", cur + 1))
        word = WORDS[(w + case.get("ws", 0)) % len(WORDS)]
        w += 1
        idx = "\\index{%s}" % s["entry"]
        k = s["where"]
        if k == "text":
            out.append("%s %s\n" % (word, idx))
        elif k == "tight":
            out.append("%s%s%s " % (word, idx, word))
        elif k == "atletter":
            # the entry is read while @ is a letter (as inside a package or a \makeatletter helper)
            out.append("%s \\makeatletter %s\\makeatother\n" % (word, idx))
        elif k == "emph":
            out.append("\\emph{%s%s} " % (word, idx))
        elif k == "item":
            out.append("\n\\begin{itemize}\\item %s %s\\end{itemize}\n" % (word, idx))
        elif k == "footnote":
            out.append("%s\\footnote{%s %s} " % (word, word, idx))
        if n % 4 == 3:
            out.append("\n\n")
    out.append("\n\\printindex\n\\end{document}\n")
    return "".join(out)


# --------------------------------------------------------------------------
# observation
# --------------------------------------------------------------------------
def parse(src, columns):
    from plasTeX.TeX import TeX
    tex = TeX()
    tex.ownerDocument.config["document"]["index-columns"] = columns
    tex.input(src)
    return tex.parse()


def doc_order_index_nodes(doc):
    from plasTeX.Base.LaTeX.Index import index as IndexCmd
    out = []

    def walk(n):
        for ch in n.childNodes:
            if isinstance(ch, IndexCmd):
                out.append(ch)
            # the formatted page number is appended *inside* the index node: no
            # need to look there
            elif ch.nodeType == 1 or ch.nodeType == 11:
                walk(ch)
    walk(doc)
    return out


def observe(doc):
    nodes = doc_order_index_nodes(doc)
    ordinal = dict((id(n), i) for i, n in enumerate(nodes))
    pis = doc.getElementsByTagName("printindex")
    if len(pis) != 1:
        return None, None, {"printindex_nodes": len(pis)}
    pi = pis[0]

    def page(p):
        node = p._cr_node
        typ = "see" if p.see else ("seealso" if p.seealso else "normal")
        return {"ord": ordinal.get(id(node)), "type": typ}

    def plain(x):
        return str.__str__(x) if isinstance(x, str) else str(x)

    def conv(e):
        return {"sort": plain(e.sortkey), "text": plain(e.key.textContent), "src": plain(e.key.source),
                "pages": [page(p) for p in e.pages],
                "children": [conv(c) for c in e.childNodes]}
    tree = [conv(e) for e in pi.childNodes]
    top = dict((id(e), i) for i, e in enumerate(pi.childNodes))
    groups = []
    for g in pi.groups:
        groups.append({"title": plain(g.title), "columns": [[top.get(id(e)) for e in col] for col in g]})
    return tree, groups, {"index_nodes": len(nodes)}


def check(case):
    src = case_source(case)
    texts = [s["entry"] for s in case["slots"]]
    collate = collator()
    feats, nontrivial = im.features(texts, collate)
    feats.add("columns=%d" % case["columns"])
    feats.add("class:" + case["class"])
    for s in case["slots"]:
        feats.add("where:" + s["where"])
    if case.get("excluded_ties"):
        feats.add("excluded:tie-made-a-merge")
    # model self-check: render/parse round trip is the identity on what we wrote
    doc, err = call_real(parse, src, case["columns"])
    if err is not None:
        return fail(err.key, dict(err.detail(), source=src), feats)
    obs, err = call_real(observe, doc)
    if err is not None:
        return fail(err.key, dict(err.detail(), source=src), feats)
    tree, groups, info = obs
    if tree is None:
        return fail("index:printindex-node-count", dict(info, source=src), feats)
    if info["index_nodes"] != len(texts):
        return fail("index:occurrence-nodes", {"expected": len(texts), "observed": info["index_nodes"],
                                               "source": src}, feats)
    r = im.validate(tree, groups, texts, collate, case["columns"])
    if r is not None:
        return fail(r[0], dict(r[1], source=src), sorted(feats))
    return ok(sorted(feats), nontrivial)


RULE = ("article/book with makeidx, 1-5 sections, 5-40 \\index entries (plain, glued to a word, inside \\emph, list item, "
        "footnote) then \\printindex; keys from pools forcing merges and near-misses (case variants, trailing blank, "
        "accented/numeric/symbol initials, quoted ! @ | \", sort@display with/without markup), 1-3 levels, encap none/"
        "textbf/textit/emph/see/seealso; a per-document 'hot' subset of 2-6 main keys makes equal paths likely; "
        "index-columns 1..4. Oracle: validity predicates P1-P5 of models/idxmodel.py. Non-trivial: >= 2 entries with the "
        "same path, >= 1 parent with two different continuations, >= 3 heading classes.")

STREAMS = [
    Stream("index", "given", lambda tier: index_case(), check,
           budget={"quick": 400, "thorough": 8000}, timeout=120.0, rule=RULE),
]

"""C11 -- verbatim text and mathematics pass through character for character.

Streams
  verbatim  verbatim / verbatim* environments and \\verb / \\verb* with every legal delimiter;
            oracle: node.textContent == body exactly; the text after the construct is processed
            normally (marker word, macro call, %-comment) = category codes restored.
  math      formulas of a generated grammar (depth <= 4, user macros with arguments) in
            $ $, \\( \\), \\[ \\], $$ $$, displaymath, equation, \\textbf{}, \\caption{}, \\section{};
            oracle: tokens(node.source) == tokens(formula with user macros expanded) wrapped
            in the delimiters plasTeX documents (models/mathtok.py, independent lexer+expander).
  mathhtml  same grammar rendered with the HTML5 renderer; the \\( .. \\) / \\[ .. \\] /
            equation payload of the page, HTML-unescaped, against the same tokens with the
            documented '<' -> '\\lt ' mapping applied.
  fuzz      atheris campaign on verbatim bodies (fuzz/C11_target.py), same oracle.
"""
import html as _html
import logging
import os
import re

from hypothesis import strategies as st

from vlib import Stream, ok, fail, skip, call_real, known_keys
from models import mathtok

logging.disable(logging.CRITICAL)

PROPERTY = "C11"
LEVEL = "exploration"
ASSUMPTIONS = [
    "verbatim: the body is every character between \\begin{verbatim} and \\end{verbatim} (plasTeX keeps the "
    "newline after \\begin{verbatim} and the one before \\end{verbatim} in the DOM; unittests/Verbatim.py strips "
    "them before comparing) -- the oracle is the identity on the body as written",
    "verbatim: \\endverbatim inside a \\begin{verbatim} body is body text (the LaTeX kernel delimits with "
    "\\end{verbatim} only)",
    "math: models/mathtok.py (token splitter + substitution expander) is a faithful reading of TeX's lexical "
    "rules for math source under default category codes and of undelimited/optional argument grabbing",
    "math: documented representation choices taken as data: $...$ for in-line math whatever the author's "
    "delimiters, \\[ ... \\] for displaymath/$$, \\begin{equation}...\\end{equation}; \\left< -> \\left\\langle; "
    "HTML payload '<' -> '\\lt ', '>' -> '\\gt ' and no HTML escaping of the payload",
]

KNOWN = known_keys(PROPERTY)

K_VERB_SPECIAL = "verb-text:special-delimiter-tokenized-before-catcode-switch"
K_VERB_PERCENT = "verb-text:percent-delimiter-starts-comment"
K_ENDCMD = "verbatim-text:endverbatim-command-in-body-ends-environment"
K_MATH_CHARSUB = "math-source:charsub-applied-in-math-mode"
K_HTML_AMP = "html-payload:ampersand-entity-decoded"
K_TEXT_DOLLAR = "math-source:dollar-math-inside-text-box-ends-outer-formula"
K_EMPTY_MATH = "math-source:empty-math-in-box-read-as-display-math"


# ==========================================================================
# plasTeX access
# ==========================================================================

def _reset_process_state():
    """plasTeX keeps some parser state on classes; when a previous case made plasTeX raise in the
    middle of a formula that state stays behind (property C17's subject, not C11's) and the next
    document in the same process is mis-parsed.  Verdicts must be a pure function of the case,
    so the two class-level parser variables are put back to their import-time values."""
    from plasTeX.Base.TeX.Primitives import MathShift
    from plasTeX import ParameterCommand
    stale = getattr(MathShift, "inEnv", None)      # per-document since repo commit f857272
    if isinstance(stale, list):
        del stale[:]
    if hasattr(ParameterCommand, "_enablelevel"):
        ParameterCommand._enablelevel = 0
        ParameterCommand.enabled = True


def _parse(source):
    from plasTeX.TeX import TeX
    tex = TeX()
    tex.input(source)
    return tex.parse()


def _plain(s):
    """plasTeX text values are DOM Text nodes whose __str__ returns self; make an exact str"""
    return s.encode("utf-8", "surrogatepass").decode("utf-8", "surrogatepass")


def _texts_after(root, target):
    """document-order text after `target` (children first, then following nodes)"""
    out = []
    state = {"seen": False}

    def walk(node):
        if node is target:
            state["seen"] = True
            return
        if node.nodeType == node.TEXT_NODE:
            if state["seen"]:
                out.append(_plain(node))
            return
        for c in node.childNodes:
            walk(c)

    walk(root)
    return "".join(out)


def _elements_after(root, target, name):
    found = []
    state = {"seen": False}

    def walk(node):
        if node is target:
            state["seen"] = True
            return
        if node.nodeType == node.TEXT_NODE:
            return
        if state["seen"] and node.nodeName == name:
            found.append(node)
        for c in node.childNodes:
            walk(c)

    walk(root)
    return found


# ==========================================================================
# stream (a): verbatim
# ==========================================================================

VERB_PLAIN_DELIMS = list("!|+/:;=@\"'()[]<>?-.,") + ["`", "1"]
VERB_CATCODE_DELIMS = list("^_")          # special category, handled by the code under test
VERB_SPECIAL_DELIMS = list("#~$&")        # row 10 of the design's defect table
VERB_PERCENT = "%"

FRAGMENTS = ["\\end", "\\end{", "\\end{verbatim", "\\endverbati", "\\end{verbatim*}", "\\end{verbatim}",
             "\\end {verbatim}", "\\end{verbatim }", "\\END{verbatim}", "%", "% c", "^^M", "^^5c", "^^", "``",
             "''", "--", "---", "?`", "!`", "{", "}", "{}", "\\\\", "\\", "  ", "    ", " ", "\t", "\n", "\n\n",
             "\n  ", " \n", "~", "#", "#1", "$", "$$", "&", "_", "^", "\\begin{verbatim}", "\\verb+x+", "<", ">",
             "\"", "\\textbf{x}", "\\par", "\\fi", "\\iffalse", "\\endinput", "\\endverbatim", "verbatim",
             "\\end{verbati}", "\\\\end{verbatim", "\\end{document}", "\\item", "\\section{s}", "\\catcode`\\%=12 "]
NONASCII = "\u00e9\u00df\u03a9\u4e2d\u2013\u00a0\u20ac"

# tails: (source, expected text after the construct with blank runs collapsed, element to find)
TAILS = [
    (" after", "after", None),
    ("after", "after", None),
    ("\\textbf{MARK} end", "MARK end", "textbf"),
    ("%hidden\nvisible", "visible", None),
    (" x%hidden{\n y \\emph{Z}", "xy Z", "emph"),
    ("{\\itshape G} done", "G done", None),
    (" $a$ \\&z", "a z", "math"),
]

CTXS = ["bare", "par", "item", "quote"]


def _wrap(ctx, inner):
    if ctx == "bare":
        return inner
    if ctx == "par":
        body = "first ``q''\n\n" + inner + "\n\nlast"
    elif ctx == "item":
        body = "first ``q''\n\n\\begin{itemize}\\item " + inner + "\n\\end{itemize}\nlast"
    else:
        body = "first ``q''\n\n\\begin{quote}" + inner + "\\end{quote}\nlast"
    return "\\documentclass{article}\n\\begin{document}\n" + body + "\n\\end{document}\n"


def _ctx_tail(ctx):
    return {"bare": "", "par": " last", "item": " last", "quote": " last"}[ctx]


def verbatim_source(case):
    if case["kind"] == "env":
        construct = "\\begin{%s}%s\\end{%s}" % (case["name"], case["body"], case["name"])
    else:
        construct = "\\verb%s%s%s%s" % ("*" if case["star"] else "", case["delim"], case["body"], case["delim"])
    return _wrap(case["ctx"], case["pre"] + construct + TAILS[case["tail"]][0])


def env_delims(name, exclude_endcmd):
    d = ["\\end{%s}" % name]
    if exclude_endcmd:
        d.append("\\end%s" % name)
    return d


PRES = ["hi ", "", "a\\textit{b} ", "x%c\n y "]
ENV_NAMES = ["verbatim", "verbatim", "verbatim*"]


def verb_delimiter_pool(star):
    pool = VERB_PLAIN_DELIMS + VERB_CATCODE_DELIMS + VERB_CATCODE_DELIMS
    pool = pool + VERB_SPECIAL_DELIMS * 2 + [VERB_PERCENT] * 2
    if star:
        pool = pool + ["*"]
    return pool


def build_verbatim_case(body, is_env, name, framed, star, delim, ctx, tail, pre):
    """Shared by the Hypothesis strategy and the atheris decoder: turns raw choices into a case of
    the asserted domain *by construction* (end delimiter destroyed, \\verb delimiter/newline replaced,
    constructs of listed known findings replaced and counted)."""
    if is_env:
        if framed:
            body = "\n" + body + "\n"
        broken = mathtok.break_delimiters(body, env_delims(name, K_ENDCMD in KNOWN))
        case = {"kind": "env", "name": name, "body": broken, "ctx": ctx, "tail": tail, "pre": pre}
        if K_ENDCMD in KNOWN and ("\\end" + name) in body:
            case["excluded_known"] = 1
        return case
    replaced = 0
    if not star:
        if delim == "^" and body == "":
            # outside the domain: "\\verb^^" + next character is a ^^-pair for TeX's own reader as well
            # (tex.web 355 reduces it while it looks for the end of the name \\verb), so the delimiter
            # LaTeX sees is not ^
            delim = "+"
        if K_VERB_SPECIAL in KNOWN and delim in VERB_SPECIAL_DELIMS:
            delim, replaced = "+", 1
        if K_VERB_PERCENT in KNOWN and delim == VERB_PERCENT:
            delim, replaced = "!", 1
    sub = "x" if delim != "x" else "y"
    body = body.replace("\n", " ").replace(delim, sub)
    case = {"kind": "verb", "star": star, "delim": delim, "body": body, "ctx": ctx, "tail": tail, "pre": pre}
    if replaced:
        case["excluded_known"] = 1
    return case


@st.composite
def verbatim_case(draw):
    pieces = draw(st.lists(st.one_of(
        st.sampled_from(FRAGMENTS),
        st.sampled_from(FRAGMENTS),
        st.characters(min_codepoint=32, max_codepoint=126),
        st.sampled_from(list(NONASCII)),
        st.text(alphabet=st.characters(min_codepoint=32, max_codepoint=126), min_size=1, max_size=6),
    ), min_size=0, max_size=14))
    body = "".join(pieces)
    ctx = draw(st.sampled_from(CTXS))
    tail = draw(st.integers(0, len(TAILS) - 1))
    pre = draw(st.sampled_from(PRES))
    if draw(st.integers(0, 9)) < 5:
        name = draw(st.sampled_from(ENV_NAMES))
        framed = draw(st.booleans())
        return build_verbatim_case(body, True, name, framed, False, "", ctx, tail, pre)
    star = draw(st.booleans())
    delim = draw(st.sampled_from(verb_delimiter_pool(star)))
    return build_verbatim_case(body, False, "", False, star, delim, ctx, tail, pre)


def _collapse(s):
    return " ".join(s.split())


def verbatim_features(case):
    b = case["body"]
    f = [case["kind"] + ":" + (case["name"] if case["kind"] == "env" else ("star" if case["star"] else "plain")),
         "ctx:" + case["ctx"], "tail:%d" % case["tail"]]
    if case.get("excluded_known"):
        f.append("excluded-known:construct-replaced")
    nt = False
    for label, cond in (("backslash", "\\" in b), ("brace", "{" in b or "}" in b), ("percent", "%" in b),
                        ("partial-end", "\\end" in b), ("blank-run", "  " in b or "\t" in b),
                        ("newline", "\n" in b), ("blank-line", "\n\n" in b), ("hat-hat", "^^" in b),
                        ("ligature", any(x in b for x in ("``", "''", "--", "?`", "!`"))),
                        ("non-ascii", any(ord(c) > 127 for c in b)), ("empty", b == "")):
        if cond:
            f.append("body:" + label)
            if label in ("backslash", "brace", "percent", "partial-end", "blank-run", "newline"):
                nt = True
    if case["kind"] == "env":
        nm = case["name"]
        if ("\\end{" + nm[:-1]) in b or ("\\end" + nm[:-1]) in b:
            f.append("body:near-miss-end")
        if ("\\end" + nm) in b:
            f.append("body:endcommand")
    else:
        d = case["delim"]
        cls = ("special" if d in VERB_SPECIAL_DELIMS else "percent" if d == "%" else
               "catcode7-8" if d in VERB_CATCODE_DELIMS else "plain")
        f.append("delim-class:" + cls)
        f.append("delim:" + d)
    return f, nt


def check_verbatim(case):
    feats, nontrivial = verbatim_features(case)
    body = case["body"]
    # domain guard (replayed / fuzzed cases): the body must not contain the end delimiter
    if case["kind"] == "env":
        if case["name"] not in ("verbatim", "verbatim*") or ("\\end{%s}" % case["name"]) in body:
            return skip("outside-domain:end-delimiter-in-body", feats)
    else:
        d = case["delim"]
        if len(d) != 1 or d.isalpha() or d in " \n\\{}" or (d == "*" and not case["star"]) \
                or d in body or "\n" in body:
            return skip("outside-domain:verb-delimiter", feats)
        if d == "^" and body == "" and not case["star"]:
            return skip("outside-domain:verb-caret-pair", feats)
    source = verbatim_source(case)
    _reset_process_state()
    doc, err = call_real(_parse, source)
    tag = case["name"] if case["kind"] == "env" else "verb"

    def keyfor(base):
        if case["kind"] == "verb" and not case["star"]:
            if case["delim"] in VERB_SPECIAL_DELIMS:
                return K_VERB_SPECIAL
            if case["delim"] == "%":
                return K_VERB_PERCENT
        if case["kind"] == "env" and ("\\end" + case["name"]) in body:
            return K_ENDCMD
        return base

    if err is not None:
        return fail(keyfor(err.key), dict(err.detail(), source=source), feats)
    nodes, err = call_real(lambda: doc.getElementsByTagName(tag))
    if err is not None:
        return fail(err.key, dict(err.detail(), source=source), feats)
    if len(nodes) != 1:
        return fail(keyfor("%s-count" % ("verbatim" if case["kind"] == "env" else "verb")),
                    {"source": source, "expected_nodes": 1, "found": len(nodes)}, feats)
    node = nodes[0]
    got = _plain(node.textContent)
    if got != body:
        base = "verbatim-text" if case["kind"] == "env" else "verb-text"
        if got == body.strip() or got.strip() == body.strip():
            base += ":outer-blanks"
        elif len(got) < len(body) and body.startswith(got):
            base += ":truncated"
        elif got.startswith(body):
            base += ":overrun"
        elif got.replace(" ", "") == body.replace(" ", ""):
            base += ":blanks"
        else:
            base += ":characters"
        return fail(keyfor(base), {"source": source, "expected": body, "observed": got}, feats)
    # what follows is processed normally again
    tsrc, ttext, telem = TAILS[case["tail"]]
    after = _plain(_collapse(_texts_after(doc, node)))
    want = _collapse(ttext + _ctx_tail(case["ctx"]))
    if after != want:
        return fail(keyfor("tail-text:" + ("comment" if "%" in tsrc and "\\%" not in tsrc else "text")),
                    {"source": source, "expected_after": want, "observed_after": after}, feats)
    if telem is not None and not _elements_after(doc, node, telem):
        return fail(keyfor("tail-macro-not-expanded"), {"source": source, "element": telem}, feats)
    if case["ctx"] != "bare":
        # self check of the scaffold: character substitution is active in this document
        if "\u201cq\u201d" not in doc.textContent:
            return fail("harness:charsub-sentinel", {"source": source, "text": _plain(doc.textContent)[:200]}, feats)
        feats.append("charsubs-active")
    return ok(feats, nontrivial)


RULE_VERBATIM = (
    "body = up to 14 pieces from {60 adversarial fragments (partial end markers, %, ^^M, ligature pairs, braces, "
    "backslashes, blank runs, tabs, newlines, blank lines, specials), printable ASCII, non-ASCII}; the complete end "
    "delimiter is destroyed by inserting a breaker character (construction); 50% verbatim/verbatim* environments, "
    "50% \\verb/\\verb* with a delimiter from 22 plain + ^ _ + # ~ $ & + % (+ * for \\verb*), body without the "
    "delimiter/newline; 4 contexts (bare fragment, article paragraph, itemize item, quote) x 7 tails (marker, "
    "macro call, %-comment, brace group). Non-trivial: body contains a backslash, brace, %, partial end marker, "
    "blank run or newline.")




# ==========================================================================
# streams (b), (c): mathematics
# ==========================================================================

LETTERS = list("abcdfgxyzABnkij")
DIGITS = list("0123456789")
GREEK = ["\\alpha", "\\beta", "\\gamma", "\\lambda", "\\pi", "\\Omega", "\\infty", "\\partial", "\\ell"]
RELS = ["\\to", "\\leq", "\\geq", "\\neq", "\\cdot", "\\times", "\\in", "\\subset", "\\pm", "\\ldots",
        "\\mapsto", "\\sum", "\\int", "\\lim", "\\sin", "\\log"]
OPS = list("+-=/,;:!?|.()*@\"") + ["[", "]"]
LIGS = ["'", "''", "`", "--", "---", "'", "''"]
ANGLES = ["<", ">"]
SPACING = ["\\,", "\\;", "\\!", "\\quad", "\\ ", "~", "\\qquad"]
ESCAPED = ["\\{", "\\}", "\\&", "\\%", "\\_", "\\#", "\\|", "\\$"]
LEFT_DELIMS = ["(", "[", "|", ".", "\\{", "\\|", "\\langle", "<", "/", "\\lfloor", ")", "]"]
RIGHT_DELIMS = [")", "]", "|", ".", "\\}", "\\|", "\\rangle", ">", "/", "\\rfloor", "(", "["]
BIGS = ["\\big", "\\Big", "\\bigl", "\\bigr", "\\Bigl", "\\Bigr", "\\bigg", "\\Bigg", "\\biggl", "\\biggr"]
BIG_DELIMS = ["(", ")", "[", "]", "|", "\\{", "\\}", "\\|", "\\langle", "\\rangle", "<", ">", "/"]
STYLES1 = ["\\mathbf", "\\mathrm", "\\mathcal", "\\mathit", "\\mathsf", "\\mathtt"]
ACCENTS = ["\\overline", "\\underline", "\\hat", "\\tilde", "\\vec", "\\bar", "\\widehat"]
WORDS = ["if", "and", "for all", "otherwise", "x is odd", "on", "a.e.", "then, or", "such  that"]
TEXT_LIGS = ["''", "--", "``a''", "it's"]
COLSPECS = [("c", 1), ("cc", 2), ("c|c", 2), ("lcr", 3), ("|c|c|", 2), ("rl", 2), ("ccc", 3),
            ("r@{\\,=\\,}l", 2), ("c@{\\quad x\\,}c", 2), ("l@{\\ldots a}r", 2)]
MACRO_NAMES = ["\\zA", "\\zB", "\\zC"]
CHARSUB_TARGETS = set("“”„‘’—–")

_CW_END = re.compile(r"\\[A-Za-z]+$")


TEXT_ACCENTS = ["gar\\c con", "Erd\\H os", "\\v Simek", "caf\\'e", 'na\\"ive', "\\c{c}a", "\\u a", "\\d o", "\\r A"]

class _Gen(object):
    """Draw-based recursive generator of formula *source text*.

    ctx keys: macros (callable macro descriptors), params (number of #k available), nolig (this
    sequence is a direct child of a brace group / array cell and the charsub finding is listed),
    nolig_deep (keep nolig through all nested levels: macro bodies and arguments), arrays (allowed)."""

    def __init__(self, draw, known_charsub):
        self.draw = draw
        self.known_charsub = known_charsub
        self.feats = set()
        self.excluded_lig = 0
        self.excluded_amp = 0
        self.excluded_textmath = 0

    def pick(self, seq):
        return self.draw(st.sampled_from(seq))

    def integer(self, a, b):
        return self.draw(st.integers(a, b))

    def blank(self):
        return self.pick(["", "", "", " ", " ", "  ", "\n", " %c\n "])

    def glue(self, left, right, sep=None):
        """concatenate two pieces of source with a blank chosen so that tokens stay apart"""
        if sep is None:
            sep = self.blank()
        if sep == "" and right[:1].isalpha() and _CW_END.search(left):
            sep = " "          # a control word must not swallow the letter that follows it
        if "%" in sep:
            self.feats.add("comment")
        if "\n" in sep:
            self.feats.add("newline")
        return left + sep + right

    def join(self, parts):
        out = ""
        for p in parts:
            out = self.glue(out, p) if out else p
        return out

    # ---- atoms ---------------------------------------------------------
    def simple_token(self):
        """a single token usable as an unbraced argument"""
        return self.pick(LETTERS + DIGITS + GREEK[:6])

    def atom(self, ctx, prev_kind):
        pools = ["letter"] * 6 + ["digit"] * 2 + ["greek"] * 2 + ["rel"] * 2 + ["op"] * 3 + \
                ["lig"] * 3 + ["angle"] * 2 + ["spacing", "escaped"]
        if ctx["params"]:
            pools += ["param"] * 6
        k = self.pick(pools)
        if k == "lig":
            if ctx["nolig"] or ctx["nolig_deep"]:
                self.excluded_lig += 1
                k = "letter"
            else:
                a = self.pick(LIGS)
                if a in ("'", "''") and prev_kind != "letter":
                    a = self.pick(["`", "--", "---"])
                self.feats.add("atom:lig")
                if ctx["site"] in ("group", "cell"):
                    self.feats.add("lig-in-" + ctx["site"])
                return a, "lig"
        if k == "letter":
            return self.pick(LETTERS), "letter"
        if k == "digit":
            return self.pick(DIGITS), "digit"
        if k == "greek":
            return self.pick(GREEK), "letter"
        if k == "rel":
            return self.pick(RELS), "rel"
        if k == "op":
            a = self.pick(OPS)
            if a == "-" and prev_kind == "minus" and (ctx["nolig"] or ctx["nolig_deep"]):
                a = "+"
            if a == "\"" and (ctx["nolig"] or ctx["nolig_deep"]):
                a = "+"
            return a, ("minus" if a == "-" else "op")
        if k == "angle":
            self.feats.add("atom:angle")
            return self.pick(ANGLES), "op"
        if k == "spacing":
            return self.pick(SPACING), "op"
        if k == "param":
            self.feats.add("param-used")
            p = "#%d" % self.integer(1, ctx["params"])
            return (p if self.integer(0, 2) else "{" + p + "}"), "group"
        return self.pick(ESCAPED), "op"

    # ---- elements ------------------------------------------------------
    def sub(self, ctx, **kw):
        c = dict(ctx)
        c["nolig"] = False
        c["site"] = "arg"
        c.update(kw)
        return c

    def braced(self, depth, ctx, maxlen=4):
        return "{" + self.blank_in() + self.seq(depth, self.sub(ctx), maxlen) + self.blank_in() + "}"

    def blank_in(self):
        return self.pick(["", "", "", " "])

    def script_arg(self, depth, ctx):
        if depth <= 0 or self.integer(0, 2) == 0:
            self.feats.add("script:single-token")
            return self.simple_token()
        self.feats.add("script:braced")
        return self.braced(depth - 1, ctx, 3)

    def nucleus(self, depth, ctx):
        k = self.integer(0, 9)
        if k <= 4 or depth <= 0:
            return self.pick(LETTERS + GREEK[:4] + [")", "]"])
        if k <= 6:
            return self.group(depth, ctx)
        if k == 7:
            return self.pick(STYLES1) + "{" + self.pick(LETTERS) + "}"
        if k == 8:
            return self.pick(["\\sum", "\\int", "\\prod", "\\lim", "\\max"])
        return self.pick(DIGITS)

    def group(self, depth, ctx):
        """bare brace group: a bgroup node in plasTeX"""
        self.feats.add("bare-group")
        c = dict(ctx)
        c["nolig"] = self.known_charsub
        c["site"] = "group"
        return "{" + self.seq(depth - 1, c, 3) + "}"

    def scripted(self, depth, ctx):
        nuc = self.nucleus(depth, ctx)
        order = self.pick(["^", "_", "^_", "_^", "^_", "_^"])
        self.feats.add("scripts:" + order)
        out = nuc
        for ch in order:
            out = out + self.blank_in() + ch + self.blank_in()
            arg = self.script_arg(depth, ctx)
            out = self.glue(out, arg, "")
        return out, ("sup" if order.endswith("^") or "^" in order else "sub")

    def element(self, depth, ctx, prev_kind):
        if depth <= 0:
            return self.atom(ctx, prev_kind)
        w = self.integer(0, 99)
        if w < 34:
            return self.atom(ctx, prev_kind)
        if w < 50:
            return self.scripted(depth, ctx)
        if w < 57:
            self.feats.add("frac")
            if self.integer(0, 3) == 0:
                return self.glue(self.glue("\\frac", self.simple_token(), self.pick(["", " "])),
                                 self.simple_token(), self.pick(["", " "])), "op"
            return "\\frac" + self.blank_in() + self.braced(depth - 1, ctx, 3) + self.blank_in() + \
                   self.braced(depth - 1, ctx, 3), "group"
        if w < 62:
            self.feats.add("sqrt")
            if self.integer(0, 1):
                self.feats.add("sqrt:optional")
                n = self.seq(0, self.sub(ctx, nobracket=True, params=0), 2)
                return "\\sqrt" + self.blank_in() + "[" + n + "]" + self.blank_in() + \
                       self.braced(depth - 1, ctx, 3), "group"
            return "\\sqrt" + self.braced(depth - 1, ctx, 3), "group"
        if w < 68:
            self.feats.add("left-right")
            l, r = self.pick(LEFT_DELIMS), self.pick(RIGHT_DELIMS)
            if l == "<" or r == ">":
                self.feats.add("angle-delimiter")
            c = dict(ctx)        # the content stays at the same level (siblings of \left)
            inner = self.seq(depth - 1, c, 3)
            out = self.glue("\\left", l, self.pick(["", " "]))
            out = self.glue(out, inner)
            out = self.glue(out, "\\right")
            out = self.glue(out, r, self.pick(["", " "]))
            return out, "op"
        if w < 72:
            self.feats.add("big")
            d = self.pick(BIG_DELIMS)
            if d in "<>":
                self.feats.add("angle-delimiter")
            return self.glue(self.pick(BIGS), d, self.pick(["", " "])), "op"
        if w < 78:
            self.feats.add("style")
            cmd = self.pick(STYLES1 + ACCENTS)
            if self.integer(0, 3) == 0:
                return self.glue(cmd, self.pick(LETTERS), self.pick(["", " "])), "op"
            return cmd + self.braced(depth - 1, ctx, 2), "group"
        if w < 84:
            return self.textbox(depth, ctx), "group"
        if w < 89:
            return self.group(depth, ctx), "group"
        if w < 94 and ctx["arrays"] and depth >= 1:
            return self.array(depth, ctx), "op"
        if ctx["macros"]:
            return self.call(depth, ctx), "group"
        return self.atom(ctx, prev_kind)

    def textbox(self, depth, ctx):
        cmd = self.pick(["\\text", "\\mbox", "\\mbox"])
        self.feats.add("textbox:" + cmd[1:])
        words = [self.pick(WORDS)]
        if self.integer(0, 3) == 0:
            words.append(self.pick(TEXT_LIGS))
            self.feats.add("textbox:ligature")
        if depth >= 1 and self.integer(0, 2) == 0:
            if cmd == "\\text" and K_TEXT_DOLLAR in KNOWN:
                self.excluded_textmath += 1
            else:
                self.feats.add(cmd[1:] + ":nested-math")
                c = self.sub(ctx, arrays=False)
                words.append("$" + self.seq(depth - 1, c, 3) + "$")
        modal = [m for m in ctx["macros"] if m.get("modal")]
        if modal and self.integer(0, 1):
            words.append(self.pick(modal)["name"] + "{}")      # text-mode call of a mode-dependent macro
            self.feats.add("textbox:mode-dependent-macro")
        if self.integer(0, 3) == 0:
            # text accents: one-letter control words and control symbols, argument bare or braced
            words.append(self.pick(TEXT_ACCENTS))
            self.feats.add("textbox:accent-command")
        if self.integer(0, 1):
            words.append(self.pick(WORDS))
        return cmd + "{" + self.pick(["", " "]) + " ".join(words) + self.pick(["", " "]) + "}"

    def array(self, depth, ctx):
        self.feats.add("array")
        spec, ncols = self.pick(COLSPECS)
        if "@" in spec:
            self.feats.add("array:at-expression")
        rows = []
        nrows = self.integer(1, 3)
        for r in range(nrows):
            cells = []
            for c in range(self.integer(1, ncols)):
                cc = dict(ctx)
                cc["nolig"] = self.known_charsub
                cc["site"] = "cell"
                cc["arrays"] = depth >= 3
                if c > 0 and self.integer(0, 5) == 0:
                    cells.append("")
                    self.feats.add("array:empty-cell")
                    continue
                body = self.seq(depth - 1, cc, 3, safe_start=True)
                if c > 0 and self.integer(0, 7) == 0:
                    # a cell that starts with the letters of a legacy HTML entity name, right after '&'
                    if K_HTML_AMP in KNOWN:
                        self.excluded_amp += 1
                    else:
                        body = "\0" + self.pick(["lt", "gt", "amp", "lt"]) + " " + body
                        self.feats.add("array:cell-starts-like-entity")
                cells.append(body)
            row = ""
            for i, cell in enumerate(cells):
                if cell.startswith("\0"):
                    row = self.glue(row, "&") + cell[1:]
                else:
                    row = cell if i == 0 else self.glue(self.glue(row, "&"), cell) if cell else self.glue(row, "&")
            if r > 0 and self.integer(0, 3) == 0:
                row = self.glue("\\hline", row, " ")
                self.feats.add("array:hline")
            rows.append(row)
        body = ""
        for i, row in enumerate(rows):
            body = row if i == 0 else self.glue(self.glue(body, "\\\\", self.pick(["", " "])), row, self.pick([" ", "\n"]))
        if self.integer(0, 4) == 0:
            body = self.glue(body, "\\\\", " ")
            self.feats.add("array:trailing-newline-command")
        if nrows > 1:
            self.feats.add("array:rows>1")
        return "\\begin{array}{" + spec + "}" + self.pick([" ", "\n", ""]) + body + self.pick([" ", "\n"]) + \
               "\\end{array}"

    def call(self, depth, ctx):
        m = self.pick(ctx["macros"])
        self.feats.add("macro-call")
        self.feats.add("macro-call:" + m["how"])
        out = m["name"]
        c = self.sub(ctx, nolig_deep=self.known_charsub, arrays=False)
        k = 0
        if m["default"] is not None:
            if self.integer(0, 1):
                self.feats.add("macro-call:optional-given")
                out += "[" + self.seq(0, dict(c, nobracket=True, params=0), 2) + "]"
            k = 1
        for i in range(k, m["nargs"]):
            if self.integer(0, 4) == 0 and not (m["default"] is not None and i == 1):
                self.feats.add("macro-call:unbraced-arg")
                out = self.glue(out, self.pick(LETTERS + DIGITS), self.pick(["", " "]))
            else:
                out += "{" + self.seq(max(0, depth - 1), c, 3) + "}"
        if m["nargs"] == 0 and self.integer(0, 2) == 0:
            out += "{}"
        return out

    # ---- sequences -----------------------------------------------------
    def seq(self, depth, ctx, maxlen, safe_start=False):
        n = self.integer(1, maxlen)
        out = ""
        prev = "start"
        for i in range(n):
            if i == 0 and safe_start:
                text, kind = self.pick(LETTERS + DIGITS + GREEK[:4]), "letter"
            else:
                text, kind = self.element(depth, ctx, prev)
            if ctx.get("nobracket") and ("[" in text or "]" in text):
                text, kind = self.pick(LETTERS), "letter"
            if prev == "sup" and text[:1] == "'":
                text, kind = "+", "op"
            if prev == "minus" and text[:1] == "-" and (ctx["nolig"] or ctx["nolig_deep"]):
                out = out + " "
            out = self.glue(out, text) if out else text
            prev = kind
        return out


def _base_ctx(macros, params=0, arrays=True, deep=False):
    return {"macros": macros, "params": params, "nolig": False, "nolig_deep": deep, "arrays": arrays,
            "site": "top"}


PLACEMENTS = {
    # name: (kind, template, arrays allowed, html stream)
    "dollar": ("inline", "$%s$", True, True),
    "paren": ("inline", "\\(%s\\)", True, True),
    "bracket": ("display", "\\[%s\\]", True, True),
    "ddollar": ("display", "$$%s$$", True, True),
    "displaymath": ("display", "\\begin{displaymath}%s\\end{displaymath}", True, True),
    "equation": ("equation", "\\begin{equation}%s\\end{equation}", True, True),
    "textbf": ("inline", "\\textbf{bold $%s$ face}", True, True),
    "emph-paren": ("inline", "\\emph{it \\(%s\\)}", True, True),
    "caption": ("inline", "\\begin{figure}\\caption{Cap $%s$ end}\\end{figure}", False, False),
    "section": ("inline", "\\section{Title $%s$}", False, False),
    "item": ("inline", "\\begin{itemize}\\item $%s$ \\end{itemize}", True, True),
    "footnote": ("inline", "text\\footnote{see \\(%s\\)}", True, False),
}
HTML_PLACEMENTS = sorted(k for k, v in PLACEMENTS.items() if v[3])


def _math_case(draw, placements, max_items):
    known = K_MATH_CHARSUB in KNOWN
    g = _Gen(draw, known)
    macros = []
    nm = g.integer(0, 3)
    for i in range(nm):
        how = g.pick(["newcommand", "newcommand", "optional", "def", "modal"])
        if how == "modal":
            # a mode-dependent macro (the \\ensuremath idiom): its expansion depends on whether the
            # call stands in a formula or in the text of a box inside a formula
            macros.append({"name": MACRO_NAMES[i], "how": "newcommand", "nargs": 0, "default": None,
                           "body": "\\ifmmode %s\\else %s\\fi" % (g.pick(["m", "\\mu", "i"]), g.pick(["t", "x", "tt"])),
                           "modal": True})
            g.feats.add("macro:mode-dependent")
            continue
        nargs = g.integer(2, 3) if how == "optional" else g.integer(0, 3)
        body = g.seq(2, _base_ctx(list(macros), params=nargs, arrays=False, deep=known), 4)
        default = None
        if how == "optional":
            default = g.seq(0, dict(_base_ctx([], deep=known), nobracket=True), 2)
            if g.integer(0, 3) == 0:
                default = ""        # \newcommand{\m}[2][]{..}: the optional argument defaults to nothing
                g.feats.add("macro:empty-optional-default")
        macros.append({"name": MACRO_NAMES[i], "how": how, "nargs": nargs, "default": default, "body": body})
    items = []
    for _ in range(g.integer(1, max_items)):
        place = g.pick(placements)
        depth = g.pick([1, 2, 2, 3, 3, 4])
        f = g.seq(depth, _base_ctx(list(macros), arrays=PLACEMENTS[place][2]), 5)
        pad = g.pick(["", "", " "])
        items.append({"place": place, "formula": pad + f + pad, "depth": depth})
    case = {"macros": macros, "items": items, "gen_features": sorted(g.feats),
            "excluded_ligatures": g.excluded_lig, "excluded_entities": g.excluded_amp,
            "excluded_text_math": g.excluded_textmath}
    if K_EMPTY_MATH in KNOWN and _has_empty_math(case):
        # listed finding: $#k$ inside a box with an empty argument; the empty defaults get a letter
        for m in macros:
            if m["default"] == "":
                m["default"] = "o"
        case["excluded_empty_math"] = 1
        if _has_empty_math(case):
            case["excluded_empty_math"] = 2       # still there (an explicit empty argument): the items are dropped
            case["items"] = [{"place": "dollar", "formula": "x", "depth": 1}]
    return case


@st.composite
def math_case(draw):
    return _math_case(draw, sorted(PLACEMENTS), 3)


@st.composite
def mathhtml_case(draw):
    return _math_case(draw, HTML_PLACEMENTS, 4)


def macro_definition(m):
    if m["how"] == "def":
        return "\\def%s%s{%s}" % (m["name"], "".join("#%d" % (i + 1) for i in range(m["nargs"])), m["body"])
    out = "\\newcommand{%s}" % m["name"]
    if m["nargs"]:
        out += "[%d]" % m["nargs"]
    if m["default"] is not None:
        out += "[%s]" % m["default"]
    return out + "{%s}" % m["body"]


def math_document(case):
    lines = ["\\documentclass{article}"]
    for m in case["macros"]:
        lines.append(macro_definition(m))
    lines.append("\\begin{document}")
    for i, it in enumerate(case["items"]):
        lines.append("word%d " % i + PLACEMENTS[it["place"]][1] % it["formula"] + " next%d" % i)
    lines.append("\\end{document}")
    return "\n".join(lines) + "\n"


MATH_NODES = ("math", "displaymath", "equation")


def _math_nodes(doc):
    out = []

    def walk(node):
        if node.nodeType not in (node.ELEMENT_NODE, node.DOCUMENT_NODE, node.DOCUMENT_FRAGMENT_NODE):
            return
        if node.nodeName in MATH_NODES:
            out.append(node)
            return
        attrs = getattr(node, "attributes", None)
        if attrs:
            for k in attrs:
                v = attrs[k]
                if k != "self" and hasattr(v, "nodeType") and hasattr(v, "childNodes"):
                    walk(v)
        for c in node.childNodes:
            walk(c)

    walk(doc)
    return out


def _tok_class(t):
    if t is None:
        return "end"
    if t in ("{", "}"):
        return "brace"
    if t in ("^", "_"):
        return "script"
    if t in ("$", "&", "#"):
        return "special"
    if t[:1] == "\\":
        return "control-word" if t[1:2].isalpha() else "control-symbol"
    return "char"


def _site(expected, index):
    """innermost construct open at position `index` of the expected tokens:
    'group' = bare brace group (a bgroup node), 'arg' = braced argument of a command or script,
    'cell' = array cell, 'top' = directly in the formula"""
    stack = []
    last_closed = None
    prev = None
    for t in expected[:index]:
        if t == "{":
            if prev in ("^", "_", "]") or (prev is not None and _tok_class(prev) == "control-word") \
                    or (prev == "}" and last_closed == "arg"):
                stack.append("arg")
            else:
                stack.append("group")
        elif t == "}":
            if stack:
                last_closed = stack.pop()
        elif t == "\\begin":
            stack.append("cell")
        elif t == "\\end":
            if stack:
                stack.pop()
        prev = t
    return stack[-1] if stack else "top"


def _has_text_dollar(case):
    """a $...$ formula inside \\text{...} (after macro expansion) somewhere in the case"""
    table = mathtok.macro_table(case["macros"])
    for it in case["items"]:
        toks = mathtok.expand(mathtok.tokens(it["formula"]), table)
        for i, t in enumerate(toks):
            if t == "\\text" and i + 1 < len(toks) and toks[i + 1] == "{":
                depth = 0
                for u in toks[i + 1:]:
                    if u == "{":
                        depth += 1
                    elif u == "}":
                        depth -= 1
                        if depth == 0:
                            break
                    elif u == "$":
                        return True
    return False


def _has_empty_math(case):
    """an empty formula $$ inside a box (after macro expansion: $#1$ with an empty argument) somewhere in the case"""
    table = mathtok.macro_table(case["macros"])
    for it in case["items"]:
        toks = mathtok.expand(mathtok.tokens(it["formula"]), table)
        if any(a == "$" and b == "$" for a, b in zip(toks, toks[1:])):
            return True
    return False


def _mismatch_key(prefix, expected, observed, diff):
    i = diff["index"]
    e = expected[i] if i < len(expected) else None
    o = observed[i] if i < len(observed) else None
    if o is not None and o in CHARSUB_TARGETS:
        site = _site(expected, i)
        if site in ("group", "cell"):
            return K_MATH_CHARSUB, site
        return "%s:charsub-in-%s" % (prefix, "argument" if site == "arg" else "formula"), site
    if e is not None and o is not None and _tok_class(e) == "control-word" and o.startswith(e) and o != e:
        return prefix + ":control-word-merged-with-next-letter", None
    return "%s:expected-%s-observed-%s" % (prefix, _tok_class(e), _tok_class(o)), None


def _case_features(case):
    feats = list(case.get("gen_features", []))
    depth = 0
    for it in case["items"]:
        feats.append("place:" + it["place"])
        depth = max(depth, it.get("depth", 0))
    feats.append("depth:%d" % depth)
    feats.append("macros:%d" % len(case["macros"]))
    for m in case["macros"]:
        feats.append("macro-def:" + m["how"])
    if case.get("excluded_ligatures"):
        feats.append("excluded-known:ligature-atom-replaced")
    if case.get("excluded_entities"):
        feats.append("excluded-known:entity-like-cell-dropped")
    if case.get("excluded_text_math"):
        feats.append("excluded-known:dollar-math-in-text-dropped")
    if case.get("excluded_empty_math"):
        feats.append("excluded-known:empty-math-in-box-avoided")
    nontrivial = depth >= 2 or "macro-call" in feats
    return feats, nontrivial


def _domain_guard(case):
    """replayed cases: the by-construction exclusion of the listed finding is re-checked cheaply"""
    for it in case["items"]:
        if it["place"] not in PLACEMENTS:
            return "outside-domain:placement"
    return None


def _root_cause(case, result):
    """failures of a case containing $..$ inside \\text{} are attributed to that construct"""
    if not result.ok and not result.excluded and not result.key.startswith("harness:") \
            and result.key != K_MATH_CHARSUB and _has_text_dollar(case):
        result.detail = dict(result.detail or {}, first_symptom=result.key)
        result.key = K_TEXT_DOLLAR
    elif not result.ok and not result.excluded and not result.key.startswith("harness:") \
            and result.key != K_MATH_CHARSUB and _has_empty_math(case):
        result.detail = dict(result.detail or {}, first_symptom=result.key)
        result.key = K_EMPTY_MATH
    return result


def check_math(case):
    return _root_cause(case, _check_math(case))


def check_mathhtml(case):
    return _root_cause(case, _check_mathhtml(case))


def _check_math(case):
    feats, nontrivial = _case_features(case)
    g = _domain_guard(case)
    if g:
        return skip(g, feats)
    table = mathtok.macro_table(case["macros"])
    source = math_document(case)
    _reset_process_state()
    doc, err = call_real(_parse, source)
    if err is not None:
        return fail(err.key, dict(err.detail(), source=source), feats)
    nodes, err = call_real(_math_nodes, doc)
    if err is not None:
        return fail(err.key, dict(err.detail(), source=source), feats)
    if len(nodes) != len(case["items"]):
        return fail("math-node-count", {"source": source, "expected": len(case["items"]),
                                        "observed": [n.nodeName for n in nodes]}, feats)
    for it, node in zip(case["items"], nodes):
        kind = PLACEMENTS[it["place"]][0]
        expected = mathtok.expected_source_tokens(it["formula"], table, kind)
        want_name = {"inline": "math", "display": "displaymath", "equation": "equation"}[kind]
        if node.nodeName != want_name:
            return fail("math-node-kind", {"source": source, "expected": want_name, "observed": node.nodeName},
                        feats)
        src, err = call_real(lambda: _plain(node.source))
        if err is not None:
            return fail(err.key, dict(err.detail(), source=source), feats)
        observed = mathtok.tokens(src)
        diff = mathtok.first_difference(expected, observed)
        if diff is not None:
            key, site = _mismatch_key("math-source", expected, observed, diff)
            return fail(key, {"document": source, "formula": it["formula"], "place": it["place"],
                              "node_source": src, "difference": diff, "site": site}, feats)
    return ok(feats, nontrivial)


# ---- (c) HTML payload -------------------------------------------------------

def _render(source):
    from plasTeX.TeX import TeX, TeXDocument
    from plasTeX.Config import defaultConfig
    from plasTeX.Renderers.HTML5 import Renderer
    from plasTeX.Renderers.HTML5.Config import addConfig
    config = defaultConfig()
    addConfig(config)
    config["files"]["split-level"] = -100
    config["images"]["imager"] = "none"
    config["images"]["vector-imager"] = "none"
    config["general"]["copy-theme-extras"] = False
    tex = TeX(TeXDocument(config=config))
    tex.input(source)
    doc = tex.parse()
    doc.userdata["working-dir"] = os.getcwd()
    doc.userdata["jobname"] = "job"
    if os.path.exists("index.html"):
        os.remove("index.html")
    Renderer().render(doc)
    with open("index.html", encoding="utf-8") as f:
        return f.read()


_PAYLOAD = re.compile(r"(\\\(.*?\\\))|(\\\[.*?\\\])|(\\begin\{equation\}.*?\\end\{equation\})", re.S)


def html_payloads(page):
    i = page.find("<body")
    body = page[i:] if i >= 0 else page
    out = []
    for m in _PAYLOAD.finditer(body):
        kind = "inline" if m.group(1) else "display" if m.group(2) else "equation"
        out.append((kind, m.group(0)))
    return out


def _check_mathhtml(case):
    feats, nontrivial = _case_features(case)
    g = _domain_guard(case)
    if g:
        return skip(g, feats)
    for it in case["items"]:
        if not PLACEMENTS[it["place"]][3]:
            return skip("outside-domain:placement-not-in-html-stream", feats)
    table = mathtok.macro_table(case["macros"])
    source = math_document(case)
    _reset_process_state()
    page, err = call_real(_render, source)
    if err is not None:
        return fail(err.key, dict(err.detail(), source=source), feats)
    found = html_payloads(page)
    if len(found) != len(case["items"]):
        return fail("html-payload-count", {"source": source, "expected": len(case["items"]),
                                           "observed": [f[1][:80] for f in found]}, feats)
    for it, (kind, raw) in zip(case["items"], found):
        want_kind = PLACEMENTS[it["place"]][0]
        if kind != want_kind:
            return fail("html-payload-kind", {"source": source, "expected": want_kind, "observed": kind,
                                              "payload": raw[:200]}, feats)
        expected = mathtok.expected_html_tokens(it["formula"], table, kind)
        text = _html.unescape(raw)
        if text != raw:
            feats.append("html:entity-decoding-changed-payload")
        observed = mathtok.tokens(text)
        diff = mathtok.first_difference(expected, observed)
        if diff is not None:
            if "<" in raw or ">" in raw:
                key, site = "html-payload:raw-angle-bracket", None
            else:
                key, site = _mismatch_key("html-payload", expected, observed, diff)
                if text != raw and mathtok.first_difference(expected, mathtok.tokens(raw)) is None:
                    key = K_HTML_AMP
            return fail(key, {"document": source, "formula": it["formula"], "place": it["place"],
                              "payload": raw, "difference": diff, "site": site}, feats)
        if "<" in raw or ">" in raw:
            return fail("html-payload:raw-angle-bracket", {"document": source, "payload": raw}, feats)
    return ok(feats, nontrivial)


RULE_MATH = (
    "1-3 formulas per article document, each placed in one of 12 placements ($ $, \\( \\), \\[ \\], $$ $$, "
    "displaymath, equation, \\textbf{}, \\emph{}, \\caption{}, \\section{}, \\item, \\footnote{}); formula = sequence "
    "grammar of depth 1..4: atoms (letters, digits, Greek, relations, operators, < >, ' '' ` -- ---, spacing "
    "commands, escaped specials), scripts in both orders with single-token or braced arguments, \\frac (braced "
    "and single-token), \\sqrt[n]{}, \\left..\\right with 12 delimiters incl. < >, \\big.. family, "
    "\\mathbf/\\mathrm/accents, \\text{words $f$}, \\mbox{words $f$}, bare brace groups, arrays (1-3 rows, &, \\\\, "
    "\\hline, empty cells), calls of 0-3 preamble macros (\\newcommand with 0-3 args, optional first argument, "
    "\\def, bodies generated from the same grammar with #k, macros calling earlier macros; braced and unbraced "
    "arguments); random blanks, newlines and %-comments between tokens. Non-trivial: depth >= 2 or a user macro "
    "call.")

STREAMS = [
    Stream("verbatim", "given", lambda tier: verbatim_case(), check_verbatim,
           budget={"quick": 1000, "thorough": 20000}, timeout=10.0, rule=RULE_VERBATIM,
           hang_is_violation=True),
    Stream("fuzz", "fuzz", lambda tier: ("fuzz/C11_target.py", ["-max_len=192"]), check_verbatim,
           budget={"quick": 1000, "thorough": 30000}, timeout=10.0,
           rule=("atheris/libFuzzer coverage-guided campaign per worker (plasTeX instrumented): bytes -> "
                 "verbatim / \\verb case via a total decoder (fragment indices + raw UTF-8 text of the "
                 "property's alphabet; end delimiter destroyed by construction), same oracle inside the "
                 "target; failures bucketed, campaign continues; non-trivial as in 'verbatim'."),
           hang_is_violation=True),
    Stream("math", "given", lambda tier: math_case(), check_math,
           budget={"quick": 600, "thorough": 12000}, timeout=20.0, rule=RULE_MATH,
           hang_is_violation=True),
    Stream("mathhtml", "given", lambda tier: mathhtml_case(), check_mathhtml,
           budget={"quick": 60, "thorough": 1200}, timeout=60.0,
           rule=("same grammar, 1-4 formulas in the 9 paragraph-level placements, rendered with the HTML5 "
                 "renderer (imagers off); the \\( \\) / \\[ \\] / equation payloads of index.html in document "
                 "order, HTML-unescaped, token-equal to the expected tokens with '<' -> \\lt, '>' -> \\gt; no raw "
                 "< or > in the payload. Non-trivial as in 'math'."),
           hang_is_violation=True),
]
